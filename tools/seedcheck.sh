#!/bin/bash
# tools/seedcheck.sh <ID> <k> [extra check ids...] : validate seeded change k of /tmp/seed_<ID>_out and run checks against it.
ID=$1; K=$2; shift 2; EXTRA="$@"
W=${SEEDWAVE:-}
OUT=/tmp/seed${W}_${ID}_out
WT=/tmp/sv${W}_${ID}_${K}
DEST=/verif/seeded/${ID}_${W:+w${W}_}${K}
[ -f $OUT/patch_$K.diff ] || { echo "no patch"; exit 2; }
git -C /repo worktree add --detach $WT HEAD -q || exit 9
cd $WT
PYTHONPATH=$WT timeout 600 /venv/bin/python $OUT/demo_$K.py > /tmp/sv${W}_${ID}_${K}_demo0.log 2>&1; D0=$?
if ! git apply $OUT/patch_$K.diff; then echo "PATCH DOES NOT APPLY"; git -C /repo worktree remove --force $WT; exit 3; fi
PYTHONPATH=$WT timeout 600 /venv/bin/python $OUT/demo_$K.py > /tmp/sv${W}_${ID}_${K}_demo1.log 2>&1; D1=$?
echo "demo unchanged exit=$D0 ; with change exit=$D1"
/venv/bin/python -m pytest -q -p no:cacheprovider --timeout=900 --continue-on-collection-errors --junitxml=/tmp/sv${W}_${ID}_${K}.xml > /tmp/sv${W}_${ID}_${K}_tests.log 2>&1
TESTS=$(/venv/bin/python /verif/tools/baseline_cmp.py /tmp/sv${W}_${ID}_${K}.xml | head -1)
echo "tests: $TESTS"
RES=""
for c in $ID $EXTRA; do
  OUTC=$(cd /verif && VERIF_REPO=$WT /venv/bin/python -m mc.run $c --tier quick --no-evidence --workers 6 2>&1)
  NV=$(echo "$OUTC" | grep -c "^VIOLATION")
  echo "check $c: $NV violation lines; $(echo "$OUTC" | grep -E "^$c tier" | cut -c1-160)"
  echo "$OUTC" | grep "signature=" | head -3 | cut -c1-220
  RES="$RES $c:$NV"
done
mkdir -p $DEST
cp $OUT/patch_$K.diff $DEST/patch.diff; cp $OUT/demo_$K.py $DEST/demo.py
/venv/bin/python - "$OUT/meta_$K.json" "$DEST/meta.json" "$D0" "$D1" "$TESTS" "$RES" <<'PY'
import json, sys
src, dst, d0, d1, tests, res = sys.argv[1:7]
import os
try:
    m = json.load(open(src))
except Exception:
    m = {}
if os.path.exists(dst):
    try:
        old = json.load(open(dst))
        if 'first_run' in old:
            m['first_run'] = old['first_run']
        elif 'confirmed' in old:
            m['first_run'] = old['confirmed'].get('checks_quick_violation_lines')
        if 'strengthening' in old:
            m['strengthening'] = old['strengthening']
    except Exception:
        pass
m['confirmed'] = {'demo_exit_unchanged': int(d0), 'demo_exit_with_change': int(d1), 'stable_tests': tests,
                  'checks_quick_violation_lines': dict(x.split(':') for x in res.split()),
                  'how': 'fresh worktree of /repo HEAD; demo run before/after git apply; full pytest with junit compared to BASELINE stable_pass (tools/baseline_cmp.py); checks run with VERIF_REPO=<worktree> (quick tier)'}
json.dump(m, open(dst, 'w'), indent=1)
PY
cd /; git -C /repo worktree remove --force $WT
