#!/bin/bash
# usage: mut.sh <ID> <file-relative-to-repo> <python-expr old> <new>   -- applies a textual replacement in a scratch worktree and runs the quick check
ID=$1; F=$2; OLD=$3; NEW=$4; shift 4
WT=/tmp/wt_mut_$$
git -C /repo worktree add --detach $WT HEAD -q || exit 9
/venv/bin/python - "$WT/$F" "$OLD" "$NEW" <<'PY'
import sys
p,old,new=sys.argv[1:4]
s=open(p).read()
if old not in s:
    print('PATTERN NOT FOUND'); sys.exit(3)
open(p,'w').write(s.replace(old,new,1))
PY
rc=$?
if [ $rc -eq 0 ]; then
  for id in $ID; do
  (cd /verif && VERIF_REPO=$WT /venv/bin/python -m mc.run $id --tier quick --no-evidence "$@" 2>&1 | grep -E "^(VIOLATION|C[0-9]+ tier|HARNESS)" | cut -c1-260 | head -8)
  done
fi
git -C /repo worktree remove --force $WT
