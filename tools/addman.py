"""tools/addman.py <ID> <technique> <text> <note> : add a T(...) entry to mc/manifest.py"""
import sys
i, tech, text, note = sys.argv[1:5]
p = '/verif/mc/manifest.py'
s = open(p).read()
assert "T('%s'," % i not in s, 'already there'
add = "\nT(%r,\n  %r,\n  %r,\n  %r)\n" % (i, tech, text, note)
s = s.replace("\n\ndef main():", add + "\n\ndef main():", 1)
open(p, 'w').write(s)
