"""tools/seedtable.py : rewrite the block between <!-- SEEDTABLE --> markers in DESIGN.md from /verif/seeded/*/meta.json"""
import glob, json, os, re
rows = []
for d in sorted(glob.glob('/verif/seeded/*/')):
    mp = os.path.join(d, 'meta.json')
    if not os.path.exists(mp):
        continue
    m = json.load(open(mp))
    c = m.get('confirmed', {})
    checks = c.get('checks_quick_violation_lines', {})
    caught = [k for k, v in checks.items() if int(v) > 0]
    missed = [k for k, v in checks.items() if int(v) == 0]
    fr = m.get('first_run') or {}
    later = None
    first_missed = [k for k, v in fr.items() if int(v) == 0 and int(checks.get(k, 0)) > 0]
    if first_missed:
        later = 'first run missed by ' + ', '.join(first_missed) + '; reported after strengthening'
    rows.append('| %s | %s | %s | %s | %s | %s |' % (
        os.path.basename(d.rstrip('/')), m.get('property', '?'),
        (m.get('summary', '') or '').replace('|', '/').replace('\n', ' ')[:170],
        (m.get('needs', '') or '').replace('|', '/').replace('\n', ' ')[:150],
        ', '.join(caught) or '-', (', '.join(missed) or '-') + ((' (' + later + ')') if later else '')))
block = ('<!-- SEEDTABLE -->\n| seeded change | property | what was changed | needs, to manifest | reported by (quick) | not reported by |\n'
         '|---|---|---|---|---|---|\n' + '\n'.join(rows) + '\n<!-- /SEEDTABLE -->')
p = '/verif/DESIGN.md'
s = open(p).read()
if '<!-- SEEDTABLE -->' in s:
    s = re.sub(r'<!-- SEEDTABLE -->.*?<!-- /SEEDTABLE -->', lambda _: block, s, flags=re.S)
else:
    s += '\n' + block + '\n'
open(p, 'w').write(s)
print(len(rows), 'rows')
