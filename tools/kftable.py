"""tools/kftable.py : rewrite the block between <!-- KFTABLE --> markers in DESIGN.md from known_findings.json"""
import json, re
d = json.load(open('/verif/known_findings.json'))
rows = []
for f in d['findings']:
    w = f['what_fails']
    w = re.sub(r'^fixed: property=\S+ \S+ ', '', w)
    rows.append('| %s | %s | %s | `%s` | %s |' % (f['property'], f['status'], f.get('commit', '-'),
                f['signature'].replace('|', '/')[:110], w.replace('|', '/').replace('\n', ' ')[:300]))
block = ('<!-- KFTABLE -->\n| property | status | fix commit in /repo | violation signature(s) | what failed |\n|---|---|---|---|---|\n'
         + '\n'.join(rows) + '\n<!-- /KFTABLE -->')
p = '/verif/DESIGN.md'
s = open(p).read()
if '<!-- KFTABLE -->' in s:
    s = re.sub(r'<!-- KFTABLE -->.*?<!-- /KFTABLE -->', lambda _: block, s, flags=re.S)
else:
    s += '\n' + block + '\n'
open(p, 'w').write(s)
print(len(rows), 'rows')
