#!/bin/bash
# tools/seedbatch.sh ID:k[:extra,extra] ... : run seedcheck for each, two at a time
run() { IFS=: read id k extra <<< "$1"; /verif/tools/seedcheck.sh $id $k ${extra//,/ } > /tmp/sc${SEEDWAVE:-}_${id}_${k}.log 2>&1; }
export -f run
printf '%s\n' "$@" | xargs -P ${SEEDPAR:-4} -I{} bash -c 'run {}'
