#!/bin/bash
# tools/seedregress.sh [dir-glob] : re-run, for every kept seeded change, the quick checks that reported it when it was
# confirmed (no pytest, no demo): prints a line per change, "LOST" when a check that used to report it is silent now.
one() {
  d=$1; name=$(basename $d); wt=/tmp/sr_$name
  checks=$(/venv/bin/python - "$d/meta.json" <<'PY'
import json,sys
m=json.load(open(sys.argv[1]))
c=m.get('confirmed',{}).get('checks_quick_violation_lines',{})
print(' '.join(k for k,v in c.items() if int(v)>0))
PY
)
  git -C /repo worktree add --detach $wt HEAD -q 2>/dev/null || { echo "$name WORKTREE-FAIL"; return; }
  (cd $wt && git apply $d/patch.diff) || { echo "$name PATCH-FAIL"; git -C /repo worktree remove --force $wt; return; }
  res=""
  for c in $checks; do
    n=$(cd /verif && VERIF_REPO=$wt /venv/bin/python -m mc.run $c --tier quick --no-evidence --workers 4 2>&1 | grep -c "^VIOLATION")
    res="$res $c:$n"; [ "$n" = "0" ] && res="$res(LOST)"
  done
  echo "$name$res"
  git -C /repo worktree remove --force $wt
}
export -f one
ls -d /verif/seeded/${1:-*} | xargs -P ${SEEDPAR:-5} -I{} bash -c 'one {}'
