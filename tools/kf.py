"""tools/kf.py <property> <status> <commit|-> <signature> <what_fails>  - append to known_findings.json"""
import json, sys
p = '/verif/known_findings.json'
d = json.load(open(p))
prop, status, commit, sig, what = sys.argv[1:6]
e = {'property': prop, 'status': status, 'signature': sig}
if commit != '-':
    e['commit'] = commit
pre = 'fixed: property=%s %s ' % (prop, commit) if status == 'fixed' else ''
e['what_fails'] = pre + what
d['findings'].append(e)
json.dump(d, open(p, 'w'), indent=1)
print(len(d['findings']), 'findings')
