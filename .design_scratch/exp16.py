import numpy as np, warnings, tempfile, os, itertools, h5py
warnings.simplefilter('ignore')
from taurex.log import disableLogging
disableLogging()
from taurex.output.hdf5 import HDF5Output
d=tempfile.mkdtemp()
leaves={'f':1.5,'i':3,'b':True,'npf':np.float64(2.5),'npi':np.int64(4),'np32':np.float32(1.5),'npb':np.bool_(True),
 's':'abc','s0':'','s65':'x'*65,'uni':'µm','a0':np.array(3.0),'a1':np.arange(3.),'a2':np.ones((2,3)),'ai':np.arange(3),'ae':np.array([]),
 'ln':[1,2.5],'ls':['a','bb'],'ls65':['y'*65],'lmix':['a',1],'t':(1.0,2.0),'la':[np.arange(2.),np.arange(2.)],'lrag':[np.arange(2.),np.arange(3.)],
 'd':{'x':1.0,'y':{'z':np.arange(2)}},'none':None,'le':[]}
for k,v in leaves.items():
    fn=f'{d}/{k}.h5'
    try:
        with HDF5Output(fn) as o: o.store_dictionary({k:v},group_name='G')
        with h5py.File(fn) as f:
            g=f['G']
            def show(x):
                if isinstance(x,h5py.Group): return {kk:show(x[kk]) for kk in x}
                return (x.shape,str(x.dtype),x[()] if x.size<8 else '...')
            print(k,'->',show(g))
    except Exception as e: print(k,'EXC',type(e).__name__,str(e)[:80])
# C17 permutations
from taurex.data.spectrum import ArraySpectrum
rows=np.array([[1.0,0.01,1e-4,0.1],[2.0,0.02,2e-4,0.3],[3.5,0.03,3e-4,0.2]])
ref=None
for cols in (3,4):
  for perm in itertools.permutations(range(3)):
    o=ArraySpectrum(rows[list(perm)][:,:cols].copy())
    sig=(tuple(o.wavenumberGrid),tuple(o.spectrum),tuple(o.errorBar),tuple(np.round(o.binWidths,9)),tuple(np.round(o.binEdges,9)))
    if perm==(0,1,2): ref=sig; print(cols,sig)
    elif sig!=ref: print('PERM DIFF',cols,perm,sig)
    b=o.create_binner(); assert np.allclose(b._wngrid,o.wavenumberGrid) and np.allclose(b._wngrid_width,o.binWidths)
# C08
from taurex.core.priors import *
from taurex.parameter.factory import create_prior
print(Gaussian(1,2).sample(0.0), Gaussian(1,2).sample(1.0), Uniform([3,1]).sample(0.25), LogUniform(lin_bounds=[1e-3,1e-1]).boundaries())
for t in ['Uniform(bounds=(0.8, 5.0))','uniform(bounds=[5.0,0.8])','LOGUNIFORM(lin_bounds=(1e-12, 1e-2))','LogGaussian(lin_mean=1e-4,std=2)','Gaussian(mean=1.0,std=0.3)','Uniform((1,2))','Foo(bounds=(1,2))']:
    try: p=create_prior(t); print(t,'->',type(p).__name__,p.params())
    except Exception as e: print(t,'EXC',type(e).__name__,e)
