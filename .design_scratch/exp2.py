import numpy as np, warnings
from taurex.log import disableLogging
disableLogging()
exec(open('exp1.py').read().split("wn=[1000.")[0])
# --- C04 corners
T=[100.,1000.,3000.]; P=[1e-2,1e2,1e6]
wn=[1000.,2000.]
rng=np.random.RandomState(1)
x=10**rng.uniform(-30,-18,size=(3,3,2))
for mode in ('linear','exp'):
    op=TinyOp('X',wn,T,P,x,mode)
    for (t,p,lab) in [(50,1e7,'Tlo,Phi'),(5000,1e-3,'Thi,Plo'),(50,1e-3,'Tlo,Plo'),(5000,1e7,'ThiPhi'),(50,1e2,'Tlo,Pin'),(500,1e7,'Tin,Phi'),(500,1e-3,'Tin,Plo'),(5000,1e1,'Thi,Pin'),(1000,1e2,'node')]:
        with warnings.catch_warnings():
            warnings.simplefilter('ignore')
            v=op.opacity(t,p)*1e4
        print(mode,lab,v, 'min',x.min(axis=(0,1)),'max',x.max(axis=(0,1)))
