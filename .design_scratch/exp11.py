import numpy as np, warnings, itertools
warnings.simplefilter('ignore')
from taurex.log import disableLogging
disableLogging()
exec(open('exp1.py').read().split("from taurex.model import")[0])
from taurex.model import TransmissionModel
from taurex.contributions import *
from taurex.data.profiles.chemistry import TaurexChemistry, ConstantGas
from taurex.data.profiles.temperature.temparray import TemperatureArray
from taurex.constants import KBOLTZ
def ref_interp(tab,Tg,Pg,T,P):
    lp=np.log10(Pg); x=np.log10(P)
    T=min(max(T,Tg[0]),Tg[-1]); x=min(max(x,lp[0]),lp[-1])
    i=min(max(np.searchsorted(Tg,T,side='right')-1,0),len(Tg)-2); j=min(max(np.searchsorted(lp,x,side='right')-1,0),len(lp)-2)
    a=(T-Tg[i])/(Tg[i+1]-Tg[i]); b=(x-lp[j])/(lp[j+1]-lp[j])
    return ((1-a)*(1-b)*tab[j,i]+a*(1-b)*tab[j,i+1]+(1-a)*b*tab[j+1,i]+a*b*tab[j+1,i+1])/1e4
def ref_depth(tm,tab,Tg,Pg,mol,method):
    N=tm.nLayers; R=tm.planet.fullRadius; Rs=tm.star.radius
    z=tm.altitude_boundaries; dz=tm.deltaz; zl=z[:-1]
    n=tm.pressureProfile/(KBOLTZ*tm.temperatureProfile)
    chi=tm.chemistry.get_gas_mix_profile(mol)
    sig=np.array([ref_interp(tab,Tg,Pg,t,p)*c for t,p,c in zip(tm.temperatureProfile,tm.pressureProfile,chi)])
    tau=np.zeros((N,tab.shape[-1]))
    for l in range(N):
        if method=='new':
            b=R+zl[l]+dz[l]/2; rout=R+z[1:]
        else:
            b=R+dz[0]/2+zl[l]; rout=R+dz[0]/2+zl+dz/2
        prev=0.0
        for k in range(l,N):
            cur=np.sqrt(rout[k]**2-b**2); seg=2*(cur-prev); prev=cur
            tau[l]+=sig[k]*n[k]*seg
    T=np.exp(-tau)
    depth=(R**2+2*np.sum((R+zl)[:,None]*(1-T)*dz[:,None],axis=0))/Rs**2
    return depth,T
wn=[1000.,2000.,3000.]; Tg=np.array([100.,1000.,3000.]); Pg=np.array([1e-2,1e2,1e7])
rng=np.random.RandomState(5)
worst=0
for scale in (0,1e-30,1e-26,1e-24,1e-22):
  tab=rng.uniform(0.3,3,size=(3,3,3))*scale*1e4
  tab[...,1]*=100
  OpacityCache().clear_cache(); OpacityCache().add_opacity(TinyOp('H2O',wn,Tg,Pg,tab))
  for N in (2,3,5,7):
    for meth in (False,True):
      chem=TaurexChemistry(); chem.addGas(ConstantGas('H2O',1e-3))
      tp=TemperatureArray(tp_array=list(np.linspace(1800,600,N)))
      tm=TransmissionModel(nlayers=N,atm_min_pressure=1e-1,atm_max_pressure=1e6,chemistry=chem,temperature_profile=tp,new_path_method=meth)
      tm.add_contribution(AbsorptionContribution()); tm.build()
      r=tm.model()
      d,T=ref_depth(tm,tab,Tg,Pg,'H2O','new' if meth else 'old')
      sat=(-np.log(np.maximum(T,1e-300))).min(axis=1)>10
      err=np.max(np.abs(r[1]/d-1)); errT=np.max(np.abs(r[2]-T)[~sat]) if (~sat).any() else 0
      worst=max(worst,err)
      if err>1e-9 or errT>1e-9: print('MISMATCH',scale,N,meth,err,errT)
print('worst rel err',worst)
