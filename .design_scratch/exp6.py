import numpy as np, warnings, time
from taurex.log import disableLogging
disableLogging()
exec(open('exp1.py').read().split("from taurex.model import")[0])
from taurex.model import TransmissionModel, EmissionModel, DirectImageModel
from taurex.contributions import *
from taurex.data.profiles.chemistry import TaurexChemistry, ConstantGas
from taurex.data.profiles.temperature import Isothermal
from taurex.data.profiles.temperature.temparray import TemperatureArray
from taurex.util.emission import black_body
from taurex.opacity.ktables.ktable import KTable
from taurex.cache.ktablecache import KTableCache
class TinyK(KTable, TinyOp):
    def __init__(self,name,wn,T,P,x,weights):
        TinyOp.__init__(self,name,wn,T,P,x); self._w=np.array(weights,float)
    weights=property(lambda s:s._w)
wn=[1000.,2000.,3000.,4000.]
T=[100.,1000.,3000.]; P=[1e-2,1e2,1e6]
rng=np.random.RandomState(3)
for scale in (1e-30,1e-24,1e-20):
    x=rng.uniform(0.5,1.5,size=(3,3,4))*scale*1e4
    OpacityCache().clear_cache(); OpacityCache().add_opacity(TinyOp('H2O',wn,T,P,x))
    KTableCache().clear_cache(); KTableCache().add_opacity(TinyK('H2O',wn,T,P,np.repeat(x[...,None],3,axis=-1),[0.2,0.5,0.3]))
    for Model in (EmissionModel,TransmissionModel):
      res={}
      for method in ('xsec','ktables'):
        GlobalCache()['opacity_method']=method
        chem=TaurexChemistry(); chem.addGas(ConstantGas('H2O',1e-3))
        kw=dict(ngauss=3) if Model is EmissionModel else {}
        tm=Model(nlayers=5,atm_min_pressure=1e-1,atm_max_pressure=1e6,chemistry=chem,temperature_profile=TemperatureArray([1500,1200,900,700,650.]),**kw)
        tm.add_contribution(AbsorptionContribution())
        tm.build()
        r=tm.model(); res[method]=r[1]
      print(Model.__name__,scale,res['xsec'],res['ktables'], np.max(np.abs(res['xsec']/res['ktables']-1)))
GlobalCache()['opacity_method']='xsec'
# isothermal identity
for scale in (1e-30,1e-24,1e-20):
    x=rng.uniform(0.5,1.5,size=(3,3,4))*scale*1e4
    OpacityCache().clear_cache(); OpacityCache().add_opacity(TinyOp('H2O',wn,T,P,x))
    for ng in (1,2,4):
        chem=TaurexChemistry(); chem.addGas(ConstantGas('H2O',1e-3))
        tm=EmissionModel(nlayers=5,atm_min_pressure=1e-1,atm_max_pressure=1e6,chemistry=chem,temperature_profile=Isothermal(1000.),ngauss=ng)
        tm.add_contribution(AbsorptionContribution()); tm.build()
        r=tm.model()
        exp=black_body(r[0],1000.)/black_body(r[0],tm.star.temperature)*(tm.planet.fullRadius/tm.star.radius)**2
        print('iso',scale,ng,np.max(np.abs(r[1]/exp-1)))
