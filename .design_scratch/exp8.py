import numpy as np, warnings, time, threading, pickle
warnings.simplefilter('ignore')
from taurex.log import disableLogging
disableLogging()
exec(open('exp1.py').read().split("from taurex.model import")[0])
from taurex.model import TransmissionModel, EmissionModel, DirectImageModel
from taurex.contributions import *
from taurex.data.profiles.chemistry import TaurexChemistry, ConstantGas
from taurex.data.profiles.temperature import Isothermal, Guillot2010
def mk(Model=TransmissionModel, contribs=(), **kw):
    chem=TaurexChemistry(); chem.addGas(ConstantGas('H2O',1e-4)); chem.addGas(ConstantGas('CH4',1e-4))
    tm=Model(nlayers=4,atm_min_pressure=1e-1,atm_max_pressure=1e5,chemistry=chem,**kw)
    for c in contribs: tm.add_contribution(c)
    tm.build(); return tm
# 1. model_full_contrib on fresh model
for cs in ([AbsorptionContribution], [RayleighContribution],[SimpleCloudsContribution],[FlatMieContribution],[AbsorptionContribution,SimpleCloudsContribution,RayleighContribution]):
    tm=mk(contribs=[c() if c is not FlatMieContribution else c(flat_topP=1e1,flat_bottomP=1e3) for c in cs])
    try:
        g,res=tm.model_full_contrib(); print('fresh full_contrib OK',[c.__name__ for c in cs], {k:[x[0] for x in v] for k,v in res.items()})
    except Exception as e: print('fresh full_contrib EXC',[c.__name__ for c in cs],repr(e))
    tm=mk(contribs=[c() if c is not FlatMieContribution else c(flat_topP=1e1,flat_bottomP=1e3) for c in cs])
    r=tm.model()
    try:
        g,rc=tm.model_contrib(); g,res=tm.model_full_contrib()
        prod=np.prod([v[1] for v in rc.values()],axis=0)
        print('  prod contrib err',np.max(np.abs(prod-r[2])))
        for k,v in res.items():
            pc=np.prod([x[2] for x in v],axis=0); print('   comp prod err',k,np.max(np.abs(pc-rc[k][1])))
    except Exception as e: print('  EXC',repr(e))
# 2. Guillot
from taurex.data import Planet
for kw in [dict(),dict(alpha=1.5,kappa_v1=0.5),dict(alpha=-0.5,kappa_v2=0.5),dict(kappa_irr=-0.01),dict(kappa_v1=-0.005),dict(T_irr=0.0),dict(kappa_v1=1e3)]:
    g=Guillot2010(**kw); g.initialize_profile(Planet(),5,np.logspace(6,-1,5))
    try: print('guillot',kw,g.profile)
    except Exception as e: print('guillot',kw,'EXC',type(e).__name__)
# 3. direct image constant
from taurex.util.emission import black_body
for Model in (EmissionModel,DirectImageModel):
    tm=mk(Model,[AbsorptionContribution()],temperature_profile=Isothermal(1000.),ngauss=2)
    r=tm.model(); bb=black_body(r[0],1000.)
    print(Model.__name__, r[1]/bb, (tm.planet.fullRadius**2/(tm.star.distance*3.08567758e16)**2))
