import numpy as np, warnings, tempfile, os, pickle
warnings.simplefilter('ignore')
from taurex.log import disableLogging
disableLogging()
from taurex.cia import HitranCIA, PickleCIA
d=tempfile.mkdtemp()
# HITRAN format: header: pair, start, end, npoints, T, maxcia ; then lines wn sigma
def write_block(f,pair,wn,T,sig):
    f.write(f"{pair:>20s}{wn[0]:10.3f}{wn[-1]:10.3f}{len(wn):7d}{T:7.1f}{sig.max():10.3E}\n")
    for w,s in zip(wn,sig): f.write(f"{w:10.4f} {s:.6E}\n")
wnA=np.array([100.,200.,300.]); wnB=np.array([400.,500.])
Ts=[100.,200.,300.,400.]
rng=np.random.RandomState(0)
with open(f'{d}/H2-He_test.cia','w') as f:
    for T in Ts: write_block(f,'H2-He',wnA,T,rng.uniform(1,2,3)*1e-44*1e10)   # block A all temps (cm^5 units: x1e10 of m^5?)
    for T in Ts[2:]: write_block(f,'H2-He',wnB,T,rng.uniform(1,2,2)*1e-44*1e10)  # block B only 300,400
h=HitranCIA(f'{d}/H2-He_test.cia')
print(h.pairName, h.wavenumberGrid, h.temperatureGrid)
print(h._xsec_grid)
for T in (100,150,200,250,300,350):
    print(T, h.cia(T))
