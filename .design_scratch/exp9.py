import numpy as np, warnings, itertools
warnings.simplefilter('ignore')
from taurex.log import disableLogging
disableLogging()
from taurex.binning import FluxBinner, SimpleBinner
from taurex.util.util import compute_bin_edges
def ref_bin(c,w,s,tc,tw):
    lo=c-w/2; hi=c+w/2
    out=np.full(len(tc),np.nan)
    for j,(cc,ww) in enumerate(zip(tc,tw)):
        a=cc-ww/2;b=cc+ww/2
        wt=np.maximum(0,np.minimum(b,hi)-np.maximum(a,lo))
        if wt.sum()>0: out[j]=(wt*s).sum()/wt.sum()
    return out
bad=0;tot=0;kinds={}
for grid in ([10.,20,30,40,50],[10.,12,15,19,24],[10.,20,40,80]):
    c=np.array(grid); w=compute_bin_edges(c)[1]
    s=np.array([1.,5,2,9,4])[:len(c)]
    lat=np.arange(c[0]-w[0], c[-1]+w[-1]+0.1, 2.5)
    for a,b in itertools.combinations(lat,2):
        tc=np.array([(a+b)/2, ]); tw=np.array([b-a])
        # need >=1 bins; FluxBinner with explicit width
        fb=FluxBinner(tc,tw)
        r=fb.bindown(c,s)[1]
        e=ref_bin(c,w,s,tc,tw)
        tot+=1
        ok = (np.isnan(e[0]) and (r[0]==0 or np.isnan(r[0]))) or (not np.isnan(e[0]) and abs(r[0]-e[0])<=1e-12*abs(e[0]))
        if not ok:
            bad+=1
            if bad<=8: print('MISMATCH',grid,a,b,r,e)
print(tot,bad)
