import numpy as np, warnings, time
from taurex.log import disableLogging
disableLogging()
exec(open('exp1.py').read().split("from taurex.model import")[0])
from taurex.model import TransmissionModel
from taurex.contributions import *
from taurex.data.profiles.chemistry import TaurexChemistry, ConstantGas
from taurex.optimizer.nestle import NestleOptimizer
import taurex.optimizer.nestle as tn
from taurex.data.spectrum import ArraySpectrum
import nestle
def mk(nl=4):
    chem=TaurexChemistry(); chem.addGas(ConstantGas('H2O',1e-4))
    tm=TransmissionModel(nlayers=nl,atm_min_pressure=1e-1,atm_max_pressure=1e5,chemistry=chem)
    tm.add_contribution(AbsorptionContribution())
    tm.build(); return tm
tm=mk()
r=tm.model()
wl=10000/r[0]
obs=ArraySpectrum(np.vstack([wl, r[1]*1.001, np.ones_like(wl)*1e-4]).T)
opt=NestleOptimizer(obs,tm,num_live_points=5, sigma_fraction=1.0)
opt.disable_fit('planet_radius'); opt.enable_fit('T'); opt.enable_fit('H2O')
rec={}
def fake_sample(loglike, prior, ndim, **kw):
    rec['ll']=loglike; rec['pr']=prior; rec['ndim']=ndim; rec['kw']=kw
    samples=np.array([[1000.,-5.],[1500.,-4.],[1200.,-3.5],[800.,-6.]])
    weights=np.array([0.1,0.5,0.4,0.0])
    res=nestle.Result(logz=-1.0,logzerr=0.1,h=1.0,samples=samples,weights=weights,logl=np.zeros(4),logvol=np.zeros(4),niter=4,ncall=4)
    return res
tn.nestle.sample=fake_sample
import builtins
t0=time.time()
sol=opt.fit()
print('fit time',time.time()-t0)
def show(d,ind=0):
    for k,v in d.items():
        if isinstance(v,dict): print(' '*ind+k); show(v,ind+2)
        else: print(' '*ind+k, type(v).__name__, getattr(v,'shape',v if not hasattr(v,'__len__') else len(v)))
show(sol)
print(rec['ll']([1500.,-4.]), rec['pr']([0.5,0.5]))
