import numpy as np, warnings, time, inspect, os, tempfile, pickle
warnings.simplefilter('ignore')
from taurex.log import disableLogging
disableLogging()
# emulate fix #1/#4
def _gas(f):
    s=inspect.getfullargspec(f); return s.args, s.varargs, s.varkw, s.defaults
inspect.getargspec=_gas
np.string_=np.bytes_; np.int=int
from taurex.cache import OpacityCache, CIACache, GlobalCache
d=tempfile.mkdtemp(prefix='tx')
wn=np.array([1000.,2000.,3000.,4000.]); T=np.array([100.,1000.,3000.]); P=np.array([1e-2,1e2,1e6])
rng=np.random.RandomState(0)
for m in ('H2O','CH4'):
    pickle.dump(dict(wno=wn,t=T,p=P/1e5,xsecarr=10**rng.uniform(-26,-22,size=(3,3,4))*1e4,name=m),open(f'{d}/{m}.pickle','wb'))
par=f"""
[Global]
xsec_path = {d}
[Chemistry]
chemistry_type = taurex
fill_gases = H2,He
ratio = 0.17
    [[H2O]]
    gas_type = constant
    mix_ratio = 1e-4
    [[CH4]]
    gas_type = twolayer
    mix_ratio_surface = 1e-5
    mix_ratio_P = 1e3
    mix_ratio_top = 1e-7
[Temperature]
profile_type = npoint
T_surface = 1400
T_top = 700
temperature_points = 1000,
pressure_points = 1e3,
[Pressure]
profile_type = simple
atm_min_pressure = 1e-1
atm_max_pressure = 1e6
nlayers = 5
[Planet]
planet_type = simple
planet_mass = 1.2
[Star]
star_type = blackbody
temperature = 5500
[Model]
model_type = transmission
    [[Absorption]]
    [[Rayleigh]]
    [[SimpleClouds]]
    clouds_pressure = 1e4
"""
open(f'{d}/in.par','w').write(par)
from taurex.parameter import ParameterParser
pp=ParameterParser(); pp.read(f'{d}/in.par'); pp.setup_globals()
try:
    model=pp.generate_appropriate_model()
    model.build()
    r=model.model()
    print('model ok', type(model).__name__, r[1])
    print(type(model.temperature).__name__, model.temperature._t_points, model.temperature._p_points, model.nLayers, model.planet.mass)
except Exception as e:
    import traceback; traceback.print_exc()
# CLI
import sys
from taurex import taurex as tt
sys.argv=['taurex','-i',f'{d}/in.par','-S',f'{d}/out.dat','-o',f'{d}/out.h5']
try:
    tt.main()
    print(np.loadtxt(f'{d}/out.dat'))
except BaseException as e:
    import traceback; traceback.print_exc()
# reload
from taurex.util.hdf5 import taurex_hdf5_to_model
try:
    m2=taurex_hdf5_to_model(f'{d}/out.h5'); m2.build(); print('reload', m2.model()[1])
except BaseException as e:
    import traceback; traceback.print_exc()
import h5py
def walk(g,ind=0):
    for k in g:
        v=g[k]
        if isinstance(v,h5py.Group): print(' '*ind+k+'/'); walk(v,ind+2)
        else: print(' '*ind+k, v.shape, v.dtype)
with h5py.File(f'{d}/out.h5') as f: walk(f)
