import numpy as np, warnings
warnings.simplefilter('ignore')
from taurex.log import disableLogging
disableLogging()
exec(open('exp1.py').read().split("from taurex.model import")[0])
from taurex.model import TransmissionModel
from taurex.contributions import *
from taurex.data.profiles.chemistry import TaurexChemistry, ConstantGas
Tg=[100.,1000.,3000.]; Pg=[1e-2,1e2,1e7]
wnA=np.linspace(1000,2000,11); wnB=np.array([1000.,1500.,2000.])
rng=np.random.RandomState(2)
OpacityCache().clear_cache()
OpacityCache().add_opacity(TinyOp('H2O',wnA,Tg,Pg,rng.uniform(1,3,size=(3,3,11))*1e-25*1e4))
OpacityCache().add_opacity(TinyOp('CH4',wnB,Tg,Pg,rng.uniform(1,30,size=(3,3,3))*1e-25*1e4))
chem=TaurexChemistry(); chem.addGas(ConstantGas('H2O',1e-3)); chem.addGas(ConstantGas('CH4',1e-3))
tm=TransmissionModel(nlayers=4,atm_min_pressure=1e-1,atm_max_pressure=1e6,chemistry=chem)
tm.add_contribution(AbsorptionContribution()); tm.build()
full=tm.model()
obs=np.array([1250.,1350.,1450.,1550., 1650.])
res=tm.model(wngrid=obs)
idx=np.searchsorted(full[0],res[0])
print('native full',full[0]); print('restricted grid',res[0])
print('full at restricted',full[1][idx]); print('restricted     ',res[1]); print('rel diff',res[1]/full[1][idx]-1)
# narrower than B spacing
try:
    r2=tm.model(wngrid=np.array([1210.,1250.,1290.])); print('narrow ok',r2[0],r2[1])
except Exception as e: print('narrow EXC',repr(e))
