import numpy as np, warnings, threading, pickle, random
warnings.simplefilter('ignore')
from taurex.log import disableLogging
disableLogging()
exec(open('exp1.py').read().split("from taurex.model import")[0])
exec(open('exp10.py').read().split("def wvar")[0].split("from taurex.util.math import OnlineVariance")[1])
import taurex.mpi as tmpi
from taurex.model import TransmissionModel
from taurex.contributions import *
from taurex.data.profiles.chemistry import TaurexChemistry, ConstantGas
from taurex.optimizer.nestle import NestleOptimizer
import taurex.optimizer.nestle as tn
from taurex.data.spectrum import ArraySpectrum
import nestle
wn=[1000.,2000.,3000.,4000.]
OpacityCache().clear_cache(); OpacityCache().add_opacity(TinyOp('H2O',wn,[100.,1000.,3000.],[1e-2,1e2,1e6],np.random.RandomState(1).uniform(1,3,(3,3,4))*1e-24*1e4))
samples=np.array([[1000.,-5.],[1500.,-4.],[1200.,-3.5],[800.,-6.],[900.,-4.5]])
weights=np.array([0.25,0.25,0.25,0.0,0.25])
def fake_sample(loglike, prior, ndim, **kw):
    return nestle.Result(logz=-1.0,logzerr=0.1,h=1.0,samples=samples.copy(),weights=weights.copy(),logl=np.zeros(5),logvol=np.zeros(5),niter=5,ncall=5)
tn.nestle.sample=fake_sample
tn.nestle.print_progress=lambda *a,**k: None
def job(r):
    random.seed(0)
    chem=TaurexChemistry(); chem.addGas(ConstantGas('H2O',1e-4))
    tm=TransmissionModel(nlayers=3,atm_min_pressure=1e-1,atm_max_pressure=1e5,chemistry=chem)
    tm.add_contribution(AbsorptionContribution()); tm.build()
    wl=10000/np.array(wn)
    obs=ArraySpectrum(np.vstack([wl, np.ones(4)*0.0115, np.ones(4)*1e-4]).T)
    opt=NestleOptimizer(obs,tm,num_live_points=5,sigma_fraction=1.0)
    opt.disable_fit('planet_radius'); opt.enable_fit('T'); opt.enable_fit('H2O'); opt.enable_derived('avg_T')
    import io,contextlib
    with contextlib.redirect_stdout(io.StringIO()):
        sol=opt.fit()
    s=sol['solution0']
    return s['derived_params']['avg_T_derived']['trace'], s['Spectra']['native_std'], s['Profiles']['temp_profile_std'], s['derived_params']['mu_derived']['trace']
res={}
for R in (1,2,3):
    sim=Sim(R); sim.install()
    out,err=sim.run(job)
    print('R',R,'err',[repr(e) for e in err])
    if out[0] is not None:
        print('  avgT trace',out[0][0]); print('  native_std',out[0][1]); print('  T std',out[0][2])
        print('  ranks agree', all(np.allclose(o[1],out[0][1],equal_nan=True) for o in out))
