import numpy as np, warnings
from taurex.log import disableLogging
disableLogging()
exec(open('exp1.py').read().split("from taurex.model import")[0])
exec(open('exp3.py').read().split("np.set_printoptions")[0].split("disableLogging()")[1].split("exec(")[0]) if False else None
from taurex.model import TransmissionModel
from taurex.contributions import *
from taurex.data.profiles.chemistry import TaurexChemistry, ConstantGas
from taurex.optimizer.optimizer import Optimizer
from taurex.data.spectrum import ArraySpectrum
from taurex.core.priors import *
def mk(nl=4):
    chem=TaurexChemistry(); chem.addGas(ConstantGas('H2O',1e-4))
    tm=TransmissionModel(nlayers=nl,atm_min_pressure=1e-1,atm_max_pressure=1e5,chemistry=chem)
    tm.add_contribution(AbsorptionContribution())
    tm.build(); return tm
tm=mk()
r=tm.model()
wl=10000/r[0]
obs=ArraySpectrum(np.vstack([wl, r[1], np.ones_like(wl)*1e-4]).T)
opt=Optimizer('t',obs,tm)
print(sorted(tm.fittingParameters.keys()))
print(sorted(tm.derivedParameters.keys()))
opt.enable_fit('T'); opt.enable_fit('H2O')
opt.compile_params()
print(opt.fit_names, opt.fit_values, opt.fit_boundaries, [p.params() for p in opt.fitting_priors])
opt.set_boundary('T',[500,600]); opt.set_mode('H2O','linear')
opt.compile_params()
print(opt.fit_names, opt.fit_values, opt.fit_boundaries, [p.params() for p in opt.fitting_priors])
try:
    opt.disable_derived('mu'); print('disable_derived ok')
except Exception as e: print('disable_derived EXC',repr(e))
try:
    opt.enable_fit('nonexist')
except Exception as e: print('unknown EXC',repr(e))
# chisq zero
opt2=Optimizer('t',obs,mk()); opt2.disable_fit('planet_radius'); opt2.enable_fit('T'); opt2.compile_params()
print('chisq at truth', opt2.chisq_trans([1500.0], obs.spectrum, obs.errorBar))
print('chisq off', opt2.chisq_trans([1400.0], obs.spectrum, obs.errorBar))
opt2.enable_fit('H2O'); opt2.compile_params()
print(opt2.fit_names)
print('chisq invalid', opt2.chisq_trans([1400.0, 0.5], obs.spectrum, obs.errorBar))
