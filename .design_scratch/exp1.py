import numpy as np, time, warnings
import logging
from taurex.log import disableLogging
disableLogging()
from taurex.opacity.interpolateopacity import InterpolatingOpacity
from taurex.cache import OpacityCache, CIACache, GlobalCache

class TinyOp(InterpolatingOpacity):
    def __init__(self, name, wn, T, P, xsec, mode='linear'):
        super().__init__('tiny', interpolation_mode=mode)
        self._n=name; self._wn=np.array(wn,float); self._T=np.array(T,float); self._P=np.array(P,float); self._x=np.array(xsec,float)
    moleculeName=property(lambda s:s._n)
    xsecGrid=property(lambda s:s._x)
    wavenumberGrid=property(lambda s:s._wn)
    temperatureGrid=property(lambda s:s._T)
    pressureGrid=property(lambda s:s._P)

wn=[1000.,2000.,3000.,4000.]
T=[100.,1000.,3000.]; P=[1e-2,1e2,1e6]
x=np.ones((3,3,4))*1e-22*1e4
OpacityCache().clear_cache()
OpacityCache().add_opacity(TinyOp('H2O',wn,T,P,x))
OpacityCache().add_opacity(TinyOp('CH4',wn,T,P,x*0.5))
from taurex.model import TransmissionModel, EmissionModel
from taurex.contributions import AbsorptionContribution, RayleighContribution
from taurex.data.profiles.chemistry import TaurexChemistry, ConstantGas
for nl in (2,3,5):
  for newm in (False,True):
    chem=TaurexChemistry(); chem.addGas(ConstantGas('H2O',1e-4)); chem.addGas(ConstantGas('CH4',1e-5))
    tm=TransmissionModel(nlayers=nl,atm_min_pressure=1e-1,atm_max_pressure=1e6,chemistry=chem,new_path_method=newm)
    tm.add_contribution(AbsorptionContribution())
    tm.build()
    t0=time.time()
    r=tm.model()
    t1=time.time()
    for i in range(20): r=tm.model()
    t2=time.time()
    print(nl,newm,'first',t1-t0,'per',(t2-t1)/20, r[1])
    print(' lens: P',len(tm.pressureProfile),'alt',len(tm.altitudeProfile),'H',len(tm.scaleheight_profile),'g',len(tm.gravity_profile),'dz',len(tm.deltaz),'zb',len(tm.altitude_boundaries), 'dens', len(tm.densityProfile))
    print(' pathlens', [len(p) for p in tm.path_length])
