import numpy as np, threading, pickle, warnings, itertools
warnings.simplefilter('ignore')
import taurex.mpi as tmpi
from taurex.util.math import OnlineVariance
class Sim:
    def __init__(self,R,order='asc'):
        self.R=R; self.tl=threading.local(); self.slots=[None]*R
        self.b1=threading.Barrier(R); self.b2=threading.Barrier(R)
    def rank(self): return self.tl.rank
    def collective(self,value):
        self.slots[self.rank()]=pickle.dumps(value)
        self.b1.wait(timeout=10)
        res=[pickle.loads(b) for b in self.slots]
        self.b2.wait(timeout=10)
        return res
    def install(self):
        tmpi.get_rank=lambda comm=None: self.rank()
        tmpi.nprocs=lambda : self.R
        tmpi.allgather=lambda v: self.collective(v)
        def allreduce(v,op):
            r=self.collective(v); out=r[0]
            for x in r[1:]: out=out+x
            return out
        tmpi.allreduce=allreduce
        tmpi.broadcast=lambda a,rank=0: self.collective(a)[rank]
        tmpi.barrier=lambda comm=None: self.collective(None)
    def run(self,fn):
        out=[None]*self.R; err=[None]*self.R
        def body(r):
            self.tl.rank=r
            try: out[r]=fn(r)
            except BaseException as e:
                err[r]=e; self.b1.abort(); self.b2.abort()
        ts=[threading.Thread(target=body,args=(r,)) for r in range(self.R)]
        [t.start() for t in ts]; [t.join() for t in ts]
        return out,err
def wvar(vals,w):
    vals=np.array(vals,float); w=np.array(w,float)
    m=(w[:,None]*vals).sum(0)/w.sum(); return (w[:,None]*(vals-m)**2).sum(0)/w.sum()
vals=[np.array([1.,2.]),np.array([3.,1.]),np.array([0.,5.]),np.array([2.,2.])]
ws=[0.1,0.5,0.3,0.1]
for R in (1,2,3):
  for assign in itertools.product(range(R),repeat=4):
    sim=Sim(R); sim.install()
    def fn(r):
        ov=OnlineVariance()
        for v,w,a in zip(vals,ws,assign):
            if a==r: ov.update(v,weight=w)
        return ov.parallelVariance()
    out,err=sim.run(fn)
    exp=wvar(vals,ws)
    ok=all(e is None for e in err) and all(np.allclose(o,exp,rtol=1e-10,equal_nan=False) for o in out)
    if not ok: print(R,assign,'->',out[0],err[0],'expected',exp)
print('done')
