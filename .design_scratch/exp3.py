import numpy as np, warnings
from taurex.log import disableLogging
disableLogging()
exec(open('exp1.py').read().split("from taurex.model import")[0])
from taurex.model import TransmissionModel
from taurex.contributions import *
from taurex.data.profiles.chemistry import TaurexChemistry, ConstantGas
def mk(nl=6, contribs=()):
    chem=TaurexChemistry(); chem.addGas(ConstantGas('H2O',1e-4))
    tm=TransmissionModel(nlayers=nl,atm_min_pressure=1e-1,atm_max_pressure=1e5,chemistry=chem)
    for c in contribs: tm.add_contribution(c)
    tm.build(); return tm
np.set_printoptions(linewidth=200, precision=4)
for kw in [dict(), dict(flat_topP=1e1), dict(flat_bottomP=1e3), dict(flat_bottomP=1e3, flat_topP=1e1), dict(flat_bottomP=1e1, flat_topP=1e3)]:
    c=FlatMieContribution(flat_mix_ratio=1e-5, **kw)
    tm=mk(6,[c])
    with warnings.catch_warnings():
        warnings.simplefilter('ignore')
        try:
            tm.model()
            print('Flat',kw,'P',tm.pressureProfile,'sig',c.sigma_xsec[:,0])
        except Exception as e:
            print('Flat',kw,'EXC',repr(e))
for kw in [dict(), dict(lee_mie_topP=1e1), dict(lee_mie_bottomP=1e3), dict(lee_mie_bottomP=1e3, lee_mie_topP=1e1), dict(lee_mie_bottomP=1e1, lee_mie_topP=1e3)]:
    c=LeeMieContribution(lee_mie_mix_ratio=1e-5, **kw)
    tm=mk(6,[c]); tm.model()
    print('Lee',kw,'sig',c.sigma_xsec[:,0])
for cp in [1e-3,1e0,1e2,1e3,1e7]:
    c=SimpleCloudsContribution(clouds_pressure=cp)
    tm=mk(6,[c, AbsorptionContribution()]); r=tm.model()
    print('Cloud',cp,'sig',c.sigma_xsec[:,0], 'trans', r[2][:,0], r[1][0])
