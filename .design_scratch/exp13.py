import numpy as np, warnings, itertools
warnings.simplefilter('ignore')
from taurex.log import disableLogging
disableLogging()
exec(open('exp1.py').read().split("from taurex.model import")[0])
exec(open('exp11.py').read().split("def ref_depth")[0].split("from taurex.constants import KBOLTZ")[1])
from taurex.model import EmissionModel
from taurex.contributions import *
from taurex.data.profiles.chemistry import TaurexChemistry, ConstantGas
from taurex.data.profiles.temperature.temparray import TemperatureArray
from taurex.constants import KBOLTZ, PLANCK, SPDLIGT, PI
def planck(wn,T):   # pi*B_lambda in W/m2/um like taurex black_body
    wl=1e4/wn*1e-6
    return PI*(2*PLANCK*SPDLIGT**2)/wl**5/(np.exp(PLANCK*SPDLIGT/(wl*KBOLTZ*T))-1)*1e-6
def gl(n):
    x,w=np.polynomial.legendre.leggauss(n); return (x+1)/2,w/2
def ref_emis(tm,tab,Tg,Pg,mol,ng):
    N=tm.nLayers; dz=tm.deltaz; Tl=tm.temperatureProfile; wn=tm.nativeWavenumberGrid
    n=tm.pressureProfile/(KBOLTZ*Tl); chi=tm.chemistry.get_gas_mix_profile(mol)
    dtau=np.array([ref_interp(tab,Tg,Pg,t,p)*c*nn*d for t,p,c,nn,d in zip(Tl,tm.pressureProfile,chi,n,dz)])
    mu,w=gl(ng)
    F=np.zeros(len(wn))
    for m,ww in zip(mu,w):
        I=planck(wn,Tl[0])/PI*np.exp(-dtau.sum(0)/m)
        for i in range(N):
            above=dtau[i+1:].sum(0)
            I=I+planck(wn,Tl[i])/PI*(np.exp(-above/m)-np.exp(-(above+dtau[i])/m))
        F+=2*np.pi*ww*m*I
    return F/planck(wn,tm.star.temperature)*(tm.planet.fullRadius/tm.star.radius)**2
wn=[1000.,2000.,3000.]; Tg=np.array([100.,1000.,3000.]); Pg=np.array([1e-2,1e2,1e7])
rng=np.random.RandomState(5); worst=0
for scale in (0,1e-30,1e-26,1e-24,1e-22,1e-19):
  tab=rng.uniform(0.3,3,size=(3,3,3))*scale*1e4; tab[...,1]*=100
  OpacityCache().clear_cache(); OpacityCache().add_opacity(TinyOp('H2O',wn,Tg,Pg,tab))
  for N in (1,2,3,5):
    for ng in (1,2,3,4):
      chem=TaurexChemistry(); chem.addGas(ConstantGas('H2O',1e-3))
      tp=TemperatureArray(tp_array=list(np.linspace(1800,600,max(N,2))[:N])) if N>1 else TemperatureArray(tp_array=[1500.,1500.])
      tm=EmissionModel(nlayers=N,atm_min_pressure=1e-1,atm_max_pressure=1e6,chemistry=chem,temperature_profile=tp,ngauss=ng)
      tm.add_contribution(AbsorptionContribution()); tm.build()
      try: r=tm.model()
      except Exception as e: print('EXC',scale,N,ng,repr(e)); continue
      e=ref_emis(tm,tab,Tg,Pg,'H2O',ng)
      err=np.max(np.abs(r[1]/e-1)); worst=max(worst,err)
      if err>1e-9: print('MISMATCH',scale,N,ng,err, r[1], e)
print('worst',worst)
