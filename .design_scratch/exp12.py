import numpy as np, warnings, itertools, time, collections
warnings.simplefilter('ignore')
from taurex.log import disableLogging
disableLogging()
exec(open('exp1.py').read().split("from taurex.model import")[0])
from taurex.model import TransmissionModel
from taurex.contributions import *
from taurex.data.profiles.chemistry import TaurexChemistry, ConstantGas
from taurex.optimizer.optimizer import Optimizer
from taurex.data.spectrum import ArraySpectrum
from taurex.core.priors import *
wn=[1000.,2000.,3000.,4000.]
OpacityCache().clear_cache(); OpacityCache().add_opacity(TinyOp('H2O',wn,[100.,1000.,3000.],[1e-2,1e2,1e6],np.ones((3,3,4))*1e-20))
def fresh():
    chem=TaurexChemistry(); chem.addGas(ConstantGas('H2O',1e-4))
    tm=TransmissionModel(nlayers=2,atm_min_pressure=1e-1,atm_max_pressure=1e5,chemistry=chem)
    tm.add_contribution(AbsorptionContribution()); tm.add_contribution(SimpleCloudsContribution(1e3))
    tm.build()
    wl=10000/np.array(wn)
    obs=ArraySpectrum(np.vstack([wl, np.ones(4)*0.01, np.ones(4)*1e-4]).T)
    return tm,obs,Optimizer('t',obs,tm)
P=['T','H2O']
OPS=[]
for p in P:
    OPS+= [('enable_fit',p),('disable_fit',p),('set_mode',p,'linear'),('set_mode',p,'log'),('set_boundary',p,(10.,20.)),('set_boundary',p,(3.,1.)),('set_prior',p,'U'),('set_prior',p,'LU')]
OPS+=[('compile_params',),('enable_derived','logg'),('disable_derived','logg')]
def mkprior(k): return Uniform(bounds=[1.,2.]) if k=='U' else LogUniform(bounds=[-3.,-1.])
def apply(opt,op):
    try:
        if op[0]=='set_prior': opt.set_prior(op[1],mkprior(op[2]))
        else: getattr(opt,op[0])(*op[1:])
        return None
    except Exception as e: return type(e).__name__
def canon(tm,obs,opt):
    st=[]
    for k in sorted(tm.fittingParameters):
        n,l,g,s,mode,fit,b=tm.fittingParameters[k]; st.append((k,mode,fit,tuple(b),round(g(),12)))
    st.append(tuple(sorted((k,v[3]) for k,v in tm.derivedParameters.items())))
    st.append(tuple(sorted((k,type(v).__name__,v.params()) for k,v in opt._fit_priors.items())))
    if opt.fitting_parameters:
        try: st.append((tuple(opt.fit_names),tuple(opt.fit_values),tuple(map(tuple,opt.fit_boundaries)),tuple(p.params() for p in opt.fitting_priors)))
        except Exception as e: st.append(('ERR',type(e).__name__))
    return tuple(st)
def build(h):
    tm,obs,opt=fresh()
    for op in h: apply(opt,op)
    return tm,obs,opt
t0=time.time()
seen={canon(*build([]))}; frontier=collections.deque([[]]); trans=0
D=3
while frontier:
    h=frontier.popleft()
    if len(h)>=D: continue
    for op in OPS:
        nh=h+[op]; k=canon(*build(nh)); trans+=1
        if k not in seen: seen.add(k); frontier.append(nh)
print('depth',D,'states',len(seen),'transitions',trans,'time',time.time()-t0)
