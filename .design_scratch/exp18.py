import sys, types, numpy as np, warnings, tempfile
warnings.simplefilter('ignore')
rec={}
pm=types.ModuleType('pymultinest')
def run(**kw): rec['mn']=kw
class Analyzer:
    def __init__(self,**kw): pass
    def get_stats(self): return {'modes':[{'maximum a posterior':[1.,2.],'mean':[1.,2.],'sigma':[.1,.1],'local log-evidence':-1.,'local log-evidence error':.1}],'global evidence':-1.,'global evidence error':.1}
pm.run=run; pm.Analyzer=Analyzer; sys.modules['pymultinest']=pm
pc=types.ModuleType('pypolychord'); pcs=types.ModuleType('pypolychord.settings'); pcp=types.ModuleType('pypolychord.priors')
class PolyChordSettings:
    def __init__(self,nd,nder): self.nd=nd
pcs.PolyChordSettings=PolyChordSettings; pcp.UniformPrior=object
def run_polychord(ll,nd,nder,settings,prior): rec['pc']=(ll,prior,nd,settings)
pc.run_polychord=run_polychord; pc.settings=pcs; pc.priors=pcp
sys.modules['pypolychord']=pc; sys.modules['pypolychord.settings']=pcs; sys.modules['pypolychord.priors']=pcp
from taurex.log import disableLogging
disableLogging()
from taurex.optimizer.multinest import MultiNestOptimizer
from taurex.optimizer.polychord import PolyChordOptimizer
from taurex.parameter.classfactory import ClassFactory
print(sorted(c.__name__ for c in ClassFactory().optimizerKlasses))
exec(open('exp1.py').read().split("from taurex.model import")[0])
from taurex.model import TransmissionModel
from taurex.contributions import *
from taurex.data.profiles.chemistry import TaurexChemistry, ConstantGas
from taurex.data.spectrum import ArraySpectrum
wn=[1000.,2000.,3000.,4000.]
OpacityCache().clear_cache(); OpacityCache().add_opacity(TinyOp('H2O',wn,[100.,1000.,3000.],[1e-2,1e2,1e6],np.random.RandomState(1).uniform(1,3,(3,3,4))*1e-24*1e4))
def mk():
    chem=TaurexChemistry(); chem.addGas(ConstantGas('H2O',1e-4))
    tm=TransmissionModel(nlayers=3,atm_min_pressure=1e-1,atm_max_pressure=1e5,chemistry=chem)
    tm.add_contribution(AbsorptionContribution()); tm.build()
    obs=ArraySpectrum(np.vstack([10000/np.array(wn), np.ones(4)*0.0115, np.ones(4)*1e-4]).T)
    return tm,obs
d=tempfile.mkdtemp()
tm,obs=mk(); o=MultiNestOptimizer(multi_nest_path=d,observed=obs,model=tm); o.disable_fit('planet_radius'); o.enable_fit('T'); o.enable_fit('H2O'); o.compile_params()
try: o.compute_fit()
except Exception as e: print('mn post',type(e).__name__, str(e)[:60])
kw=rec['mn']; cube=[0.25,0.5]; kw['Prior'](cube,2,2); print('mn prior',cube,'ll',kw['LogLikelihood'](cube,2,2))
tm,obs=mk(); o=PolyChordOptimizer(polychord_path=d,observed=obs,model=tm); o.disable_fit('planet_radius'); o.enable_fit('T'); o.enable_fit('H2O'); o.compile_params()
try: o.compute_fit()
except Exception as e: print('pc post',type(e).__name__, str(e)[:60])
ll,prior,nd,st=rec['pc']; th=prior([0.25,0.5]); print('pc prior',th,'ll',ll(th))
